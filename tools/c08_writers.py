#!/usr/bin/env python3
"""Independent archive / packer *encoders* for the C08 oracle (none of this code comes from libxmp).

Every writer takes the payload bytes (and options) and returns the archive bytes.
Library encoders: zlib (raw deflate), bz2, lzma, zipfile.  Own writers: gzip member header
(FTEXT/FHCRC/FEXTRA/FNAME/FCOMMENT), compress(1) LZW 9..16 bit (block mode, CLEAR codes),
LHA -lh0- header levels 0/1/2, ARC/Spark stored + RLE90 (methods 1/2/3, 0x82/0x83), ArcFS stored/RLE90,
LZX stored, PowerPacker PP20 (literals + matches), MMCMP stored blocks.
"""
import bz2
import io
import lzma
import struct
import zipfile
import zlib


# ------------------------------------------------------------------ check codes
def crc16_arc(data, crc=0):
    for b in data:
        crc ^= b
        for _ in range(8):
            crc = (crc >> 1) ^ 0xA001 if crc & 1 else crc >> 1
    return crc


_CRC16_TAB = None


def crc16_fast(data):
    global _CRC16_TAB
    if _CRC16_TAB is None:
        _CRC16_TAB = []
        for i in range(256):
            c = i
            for _ in range(8):
                c = (c >> 1) ^ 0xA001 if c & 1 else c >> 1
            _CRC16_TAB.append(c)
    crc = 0
    t = _CRC16_TAB
    for b in data:
        crc = (crc >> 8) ^ t[(crc ^ b) & 0xff]
    return crc


def crc32(data, c=0):
    return zlib.crc32(data, c) & 0xffffffff


# ------------------------------------------------------------------ gzip
FTEXT, FHCRC, FEXTRA, FNAME, FCOMMENT = 1, 2, 4, 8, 16


def raw_deflate(p, level=6, wbits=15, memlevel=8, strategy=0):
    co = zlib.compressobj(level, zlib.DEFLATED, -wbits, memlevel, strategy)
    return co.compress(p) + co.flush()


def gzip_member(p, level=6, wbits=15, memlevel=8, strategy=0, ftext=False, extra=None, name=None,
                comment=None, hcrc=False, mtime=0, xfl=0, osid=3):
    """RFC 1952 member.  extra: bytes or None; name/comment: bytes without NUL or None."""
    flg = (FTEXT if ftext else 0) | (FHCRC if hcrc else 0) | (FEXTRA if extra is not None else 0) | \
          (FNAME if name is not None else 0) | (FCOMMENT if comment is not None else 0)
    h = bytes([0x1f, 0x8b, 8, flg]) + struct.pack("<I", mtime & 0xffffffff) + bytes([xfl, osid])
    if extra is not None:
        h += struct.pack("<H", len(extra)) + extra
    if name is not None:
        h += name + b"\0"
    if comment is not None:
        h += comment + b"\0"
    if hcrc:
        h += struct.pack("<H", crc32(h) & 0xffff)
    d = raw_deflate(p, level, wbits, memlevel, strategy)
    return h + d + struct.pack("<II", crc32(p), len(p) & 0xffffffff), len(h), d


# ------------------------------------------------------------------ bzip2 / xz
def bzip2(p, level=9):
    return bz2.compress(p, level)


XZ_CHECKS = {"none": lzma.CHECK_NONE, "crc32": lzma.CHECK_CRC32, "crc64": lzma.CHECK_CRC64, "sha256": lzma.CHECK_SHA256}


def xz(p, check="crc32", preset=None, dict_size=None, lc=3, lp=0, pb=2, mode=None, nice_len=None, mf=None,
       depth=None, blocks=1):
    if dict_size is None and preset is not None:
        filters = None
    else:
        f = {"id": lzma.FILTER_LZMA2, "dict_size": dict_size or (1 << 20), "lc": lc, "lp": lp, "pb": pb}
        if preset is not None:
            f["preset"] = preset
        if mode is not None:
            f["mode"] = mode
        if nice_len is not None:
            f["nice_len"] = nice_len
        if mf is not None:
            f["mf"] = mf
        if depth is not None:
            f["depth"] = depth
        filters = [f]
    co = lzma.LZMACompressor(format=lzma.FORMAT_XZ, check=XZ_CHECKS[check],
                             preset=preset if filters is None else None, filters=filters)
    return co.compress(p) + co.flush()


# ------------------------------------------------------------------ zip
def zip_archive(members, method="deflated", level=6, comment=b"", zip64=False):
    """members: list of (name str, bytes, method or None).  Order = central directory order."""
    bio = io.BytesIO()
    m0 = zipfile.ZIP_DEFLATED if method == "deflated" else zipfile.ZIP_STORED
    with zipfile.ZipFile(bio, "w", m0, allowZip64=True) as z:
        for name, data, meth in members:
            mm = m0 if meth is None else (zipfile.ZIP_DEFLATED if meth == "deflated" else zipfile.ZIP_STORED)
            zi = zipfile.ZipInfo(name, date_time=(1996, 1, 1, 0, 0, 0))
            zi.compress_type = mm
            if name.endswith("/"):
                zi.external_attr = 0x10
                z.writestr(zi, b"")
            elif zip64:
                with z.open(zi, "w", force_zip64=True) as f:
                    f.write(data)
            else:
                z.writestr(zi, data, compress_type=mm, compresslevel=level if mm == zipfile.ZIP_DEFLATED else None)
        z.comment = comment
    return bio.getvalue()


def zip_streamed(members, level=6):
    """zip written to an unseekable stream: local headers carry flag bit 3 + data descriptors."""
    class W(io.RawIOBase):
        def __init__(s):
            s.b = bytearray()

        def writable(s):
            return True

        def write(s, d):
            s.b += d
            return len(d)

        def seekable(s):
            return False
    w = W()
    with zipfile.ZipFile(w, "w", zipfile.ZIP_DEFLATED) as z:
        for name, data, meth in members:
            zi = zipfile.ZipInfo(name, date_time=(1996, 1, 1, 0, 0, 0))
            zi.compress_type = zipfile.ZIP_STORED if meth == "stored" else zipfile.ZIP_DEFLATED
            with z.open(zi, "w") as f:
                f.write(data)
    return bytes(w.b)


# ------------------------------------------------------------------ compress(1) LZW
def compress_lzw(p, maxbits=16, block_mode=True, clear_every=0, header=True, first_byte_bits=False):
    """compress(1) .Z stream (magic 1f 9d, flags = maxbits | 0x80 block mode).  `clear_every` > 0 emits a
    CLEAR code (256) after that many codes once the table is full (block mode only).  Code widths grow
    9..maxbits; at every width change / CLEAR the output is padded to a multiple of n_bits bytes since the
    last such point, as compress(1) does (codes are written in groups of 8)."""
    assert 9 <= maxbits <= 16
    out = bytearray()
    if header:
        out += bytes([0x1f, 0x9d, maxbits | (0x80 if block_mode else 0)])
    elif first_byte_bits:
        out += bytes([maxbits])
    acc = 0
    nacc = 0
    group_bits = 0          # bits written since last alignment point
    n_bits = 9
    maxmaxcode = 1 << maxbits
    first = 257 if block_mode else 256

    def maxcode_for(nb):
        return maxmaxcode if nb == maxbits else (1 << nb) - 1

    maxcode = maxcode_for(9)
    dec_free = first        # the decoder's free_ent seen before reading the next code
    ncodes = 0              # codes since start / last CLEAR

    def put(code, nb):
        nonlocal acc, nacc, group_bits
        acc |= code << nacc
        nacc += nb
        group_bits += nb
        while nacc >= 8:
            out.append(acc & 0xff)
            acc >>= 8
            nacc -= 8

    def align(nb):
        nonlocal acc, nacc, group_bits
        unit = nb * 8
        pad = (-group_bits) % unit
        while pad > 0:
            k = min(pad, 16)
            put(0, k)
            pad -= k
        assert nacc == 0
        group_bits = 0

    def emit(code):
        nonlocal n_bits, maxcode, dec_free, ncodes
        # decoder checks the width before reading each code
        if dec_free > maxcode:
            align(n_bits)
            n_bits += 1
            maxcode = maxcode_for(n_bits)
        put(code, n_bits)
        ncodes += 1
        if ncodes > 1 and dec_free < maxmaxcode:
            dec_free += 1

    table = {}
    free_ent = first
    since_full = 0
    if not p:
        return bytes(out)
    ent = p[0]
    for c in p[1:]:
        key = (ent << 8) | c
        if key in table:
            ent = table[key]
            continue
        emit(ent)
        if free_ent < maxmaxcode:
            table[key] = free_ent
            free_ent += 1
        elif block_mode and clear_every:
            since_full += 1
            if since_full >= clear_every:
                # CLEAR: decoder sets free_ent = 256, pads, n_bits = 9; the next code creates a junk entry 256
                if dec_free > maxcode:      # cannot happen when the table is full, kept for safety
                    align(n_bits)
                    n_bits += 1
                    maxcode = maxcode_for(n_bits)
                put(256, n_bits)
                align(n_bits)
                n_bits = 9
                maxcode = maxcode_for(9)
                dec_free = 256
                ncodes = 1          # the next code makes the decoder add (junk) entry 256 -> free_ent 257
                table = {}
                free_ent = first
                since_full = 0
        ent = c
    emit(ent)
    if nacc:
        out.append(acc & 0xff)
    return bytes(out)


# ------------------------------------------------------------------ LHA -lh0-
def _dos_time():
    return struct.pack("<I", (16 << 25) | (1 << 21) | (1 << 16))


def lha_member(name, data, level=0, method=b"-lh0-", osid=b"U"):
    nm = name.encode("latin-1") if isinstance(name, str) else name
    crc = crc16_fast(data)
    if level == 0:
        body = method + struct.pack("<II", len(data), len(data)) + _dos_time() + bytes([0x20, 0]) + \
            bytes([len(nm)]) + nm + struct.pack("<H", crc)
        return bytes([len(body), sum(body) & 0xff]) + body + data
    if level == 1:
        body = method + struct.pack("<II", len(data), len(data)) + _dos_time() + bytes([0x20, 1]) + \
            bytes([len(nm)]) + nm + struct.pack("<H", crc) + osid + struct.pack("<H", 0)
        return bytes([len(body), sum(body) & 0xff]) + body + data
    if level == 2:
        ext = struct.pack("<H", 3 + len(nm)) + b"\x01" + nm + struct.pack("<H", 0)
        fixed = method + struct.pack("<II", len(data), len(data)) + struct.pack("<I", 820454400) + \
            bytes([0x20, 2]) + struct.pack("<H", crc) + osid
        total = 2 + len(fixed) + len(ext)
        pad = b""
        if total & 0xff == 0:
            pad = b"\0"
            total += 1
        return struct.pack("<H", total) + fixed + ext + pad + data
    raise ValueError(level)


def lha_dir(name, level=1):
    nm = (name.rstrip("/") + "\xff").encode("latin-1")
    if level == 0:
        nm = (name.rstrip("/") + "/").encode("latin-1")      # level 0 stores the path with a trailing separator
        body = b"-lhd-" + struct.pack("<II", 0, 0) + _dos_time() + bytes([0x20, 0]) + bytes([len(nm)]) + nm + \
            struct.pack("<H", 0)
        return bytes([len(body), sum(body) & 0xff]) + body
    # level 1 with a path extended header (type 2)
    ext = b"\x02" + nm + struct.pack("<H", 0)
    body = b"-lhd-" + struct.pack("<II", len(ext), 0) + _dos_time() + bytes([0x20, 1]) + bytes([0]) + \
        struct.pack("<H", 0) + b"U" + struct.pack("<H", len(ext))
    return bytes([len(body), sum(body) & 0xff]) + body + ext


def lha_archive(members, level=0, osid=b"U"):
    """members: list of (name, data) ; name ending in '/' = directory entry."""
    out = b""
    for name, data in members:
        if name.endswith("/"):
            out += lha_dir(name, 1 if level else 0)
        else:
            out += lha_member(name, data, level, osid=osid)
    return out + b"\0"


# ------------------------------------------------------------------ ARC / Spark, RLE90
def rle90_encode(p, max_run=255, literal_only=False):
    """ARC "packed" (method 3) stream: byte, or byte 0x90 count (count = total run length incl. the byte
    already written, 0 = literal 0x90)."""
    out = bytearray()
    i = 0
    n = len(p)
    while i < n:
        b = p[i]
        j = i
        while j < n and p[j] == b and j - i < max_run:
            j += 1
        run = j - i
        if b == 0x90:
            # a literal 0x90 is `90 00`; runs of 0x90 are written one by one (a count after the
            # escape pair would be read as data by classic decoders)
            for _ in range(run):
                out += b"\x90\x00"
        elif run >= 3 and not literal_only:
            out.append(b)
            out += bytes([0x90, run])
        else:
            out += bytes([b]) * run
        i = j
    return bytes(out)


def arc_name(name):
    nm = name.encode("latin-1")[:12]
    return nm + b"\0" * (13 - len(nm))


def arc_entry(name, data, method=2, spark=False):
    m = method & 0x7f
    if m in (1, 2):
        cdata = data
    elif m == 3:
        cdata = rle90_encode(data)
    else:
        raise ValueError(method)
    h = bytes([0x1a, (method | 0x80) if spark else method]) + arc_name(name) + struct.pack("<I", len(cdata)) + \
        struct.pack("<HH", 0x2021, 0) + struct.pack("<H", crc16_fast(data))
    if m != 1:
        h += struct.pack("<I", len(data))
    if spark:
        h += struct.pack("<III", 0xfffffd00, 0, 0)
    return h + cdata


def arc_archive(members, spark=False):
    """members: list of (name, data, method)."""
    out = b""
    for name, data, method in members:
        out += arc_entry(name, data, method, spark)
    return out + bytes([0x1a, 0x80 if spark else 0x00])


def arc_tree(nodes, spark=False, top=True):
    """ARC / Spark archive with nested directories.  nodes: list of ("file", name, data, method) or
    ("dir", name, children).  A directory is an entry whose data is a nested archive: Spark: method 0x82 with the
    RISC OS filetype 0xDDC in the load address, closed by an end-of-archive marker (1a 80); ARC 6: type 30, closed
    by an end-of-directory marker (1a 1f)."""
    out = b""
    for n in nodes:
        if n[0] == "file":
            out += arc_entry(n[1], n[2], n[3], spark)
        else:
            nested = arc_tree(n[2], spark, top=False)
            if spark:
                h = bytes([0x1a, 0x82]) + arc_name(n[1]) + struct.pack("<I", len(nested)) + struct.pack("<HH", 0x2021, 0) + \
                    struct.pack("<H", crc16_fast(nested)) + struct.pack("<I", len(nested)) + struct.pack("<III", 0xfffddc00 | 0x42, 0, 3)
            else:
                h = bytes([0x1a, 30]) + arc_name(n[1]) + struct.pack("<I", len(nested)) + struct.pack("<HH", 0x2021, 0) + \
                    struct.pack("<H", crc16_fast(nested)) + struct.pack("<I", len(nested))
            out += h + nested
    if top or spark:
        return out + bytes([0x1a, 0x80 if spark else 0x00])
    return out + bytes([0x1a, 31])


# ------------------------------------------------------------------ ArcFS
def arcfs_archive(members, pad_entries=0):
    """members: list of (name(<=11), data, method) with method 0x82 stored / 0x83 packed."""
    n = len(members) + pad_entries
    entries_len = 36 * n
    data_offset = 96 + entries_len
    hdr = b"Archive\0" + struct.pack("<IIIII", entries_len, data_offset, 260, 260, 0x0a) + b"\0" * 68
    ent = b""
    blob = b""
    for name, data, method in members:
        m = method & 0x7f
        cdata = data if m == 2 else rle90_encode(data)
        nm = name.encode("latin-1")[:11]
        nm = nm + b"\0" * (11 - len(nm))
        attr = (crc16_fast(data) << 16) | (0 << 8) | 0x03
        e = bytes([method]) + nm + struct.pack("<I", len(data)) + struct.pack("<II", 0xfffffd00, 0) + \
            struct.pack("<I", attr) + struct.pack("<I", len(cdata)) + struct.pack("<I", len(blob))
        assert len(e) == 36
        ent += e
        blob += cdata
    ent += b"\0" * (36 * pad_entries)
    return hdr + ent + blob


# ------------------------------------------------------------------ LZX (stored)
def lzx_archive(members, comment=b""):
    out = b"LZX" + bytes([0, 0x0c, 0, 0x0a, 0x04, 0, 0])
    for name, data in members:
        nm = name.encode("latin-1")
        e = bytearray(31)
        e[0] = 0
        struct.pack_into("<I", e, 2, len(data))
        struct.pack_into("<I", e, 6, len(data))
        e[10] = 0x0a        # machine type
        e[11] = 0           # method: stored
        e[12] = 0           # flags
        e[14] = len(comment)
        e[15] = 0x0a
        struct.pack_into("<I", e, 18, 0x12345678)
        struct.pack_into("<I", e, 22, crc32(data))
        e[30] = len(nm)
        struct.pack_into("<I", e, 26, 0)
        hc = crc32(bytes(e) + nm + comment)
        struct.pack_into("<I", e, 26, hc)
        out += bytes(e) + nm + comment + data
    return out


# ------------------------------------------------------------------ PowerPacker PP20
def pp20(p, eff=(9, 10, 10, 10), use_matches=True, max_match=40):
    """PP20 file.  The decoder reads the bit stream from the end of the packed area backwards and writes the
    output from its end backwards, so the encoder works on reversed(p)."""
    assert 0 < len(p) < (1 << 24)
    R = p[::-1]
    n = len(R)
    bits = []

    def put(v, nb):
        for k in range(nb - 1, -1, -1):
            bits.append((v >> k) & 1)

    def put_literals(buf):
        m = len(buf) - 1
        while m >= 3:
            put(3, 2)
            m -= 3
        put(m, 2)
        for b in buf:
            put(b, 8)

    # find matches (hash of 2-byte pairs, most recent first)
    last = {}
    i = 0
    lit = bytearray()
    need_match = False      # after a literal run a match must follow
    maxoff = [1 << e for e in eff]
    while i < n:
        best = None
        if use_matches and i + 1 < n:
            key = R[i] | (R[i + 1] << 8)
            cand = last.get(key, ())
            for j in reversed(cand[-8:]):
                dist = i - j
                if dist < 1:
                    continue
                l = 0
                while i + l < n and l < max_match and R[j + l] == R[i + l]:
                    l += 1
                if l < 2:
                    continue
                # which length class?  x = min(l,5)-2 ; offset must fit
                x = min(l, 5) - 2
                off = dist - 1
                if x < 3:
                    if off < maxoff[x]:
                        ll = x + 2
                    else:
                        continue
                else:
                    if off < 128 or off < maxoff[3]:
                        ll = l
                    else:
                        continue
                if best is None or ll > best[0]:
                    best = (ll, off)
        if best is None:
            if i + 1 < n:
                last.setdefault(R[i] | (R[i + 1] << 8), []).append(i)
            lit.append(R[i])
            i += 1
            continue
        ll, off = best
        if lit:
            put(0, 1)
            put_literals(lit)
            lit = bytearray()
        else:
            put(1, 1)
        x = min(ll, 5) - 2
        put(x, 2)
        if x == 3:
            if off < 128:
                put(0, 1)
                put(off, 7)
            else:
                put(1, 1)
                put(off, eff[3])
            m = ll - 5
            while m >= 7:
                put(7, 3)
                m -= 7
            put(m, 3)
        else:
            put(off, eff[x])
        for k in range(ll):
            if i + k + 1 < n:
                last.setdefault(R[i + k] | (R[i + k + 1] << 8), []).append(i + k)
        i += ll
    if lit:
        put(0, 1)
        put_literals(lit)
    skip = (-len(bits)) % 32
    allbits = [0] * skip + bits
    nbytes = len(allbits) // 8
    packed = bytearray(nbytes)
    for idx, b in enumerate(allbits):
        if b:
            packed[nbytes - 1 - (idx >> 3)] |= 1 << (idx & 7)
    return b"PP20" + bytes(eff) + bytes(packed) + struct.pack(">I", len(p))[1:] + bytes([skip])


# ------------------------------------------------------------------ MMCMP (stored blocks)
def mmcmp_stored(p, block_size=0x10000, subs_per_block=1):
    """ziRCONia file whose blocks are all uncompressed (flags 0)."""
    blocks = []
    pos = 0
    while pos < len(p):
        chunk = p[pos:pos + block_size]
        # split chunk into sub blocks
        k = max(1, min(subs_per_block, len(chunk)))
        step = (len(chunk) + k - 1) // k
        subs = []
        q = 0
        while q < len(chunk):
            subs.append((pos + q, min(step, len(chunk) - q)))
            q += step
        blocks.append((chunk, subs))
        pos += len(chunk)
    hdr_len = 24
    body = b""
    offsets = []
    for chunk, subs in blocks:
        offsets.append(hdr_len + len(body))
        bh = struct.pack("<IIIHHHH", len(chunk), len(chunk), 0, len(subs), 0, 0, 0)
        for (upos, usz) in subs:
            bh += struct.pack("<II", upos, usz)
        body += bh + chunk
    blktable = hdr_len + len(body)
    hdr = b"ziRCONia" + struct.pack("<HHHIIBB", 14, 0x1300, len(blocks), len(p), blktable, 0, 0)
    assert len(hdr) == hdr_len
    return hdr + body + b"".join(struct.pack("<I", o) for o in offsets)


# ------------------------------------------------------------------ MMCMP (bit-packed blocks)
MM_CMD8 = [0x01, 0x03, 0x07, 0x0f, 0x1e, 0x3c, 0x78, 0xf8]
MM_FETCH8 = [3, 3, 3, 3, 2, 1, 0, 0]
MM_CMD16 = [0x0001, 0x0003, 0x0007, 0x000f, 0x001e, 0x003c, 0x0078, 0x00f0,
            0x01f0, 0x03f0, 0x07f0, 0x0ff0, 0x1ff0, 0x3ff0, 0x7ff0, 0xfff0]
MM_FETCH16 = [4, 4, 4, 4, 3, 2, 1, 0, 0, 0, 0, 0, 0, 0, 0, 0]
MMCMP_COMP, MMCMP_DELTA, MMCMP_16BIT, MMCMP_ABS16 = 0x0001, 0x0002, 0x0004, 0x0200


class _BitW:
    def __init__(s):
        s.out = bytearray()
        s.acc = 0
        s.n = 0

    def put(s, v, nb):
        assert 0 <= v < (1 << nb) or nb == 0
        s.acc |= v << s.n
        s.n += nb
        while s.n >= 8:
            s.out.append(s.acc & 0xff)
            s.acc >>= 8
            s.n -= 8

    def done(s):
        if s.n:
            s.out.append(s.acc & 0xff)
            s.acc = 0
            s.n = 0
        return bytes(s.out)


def _mm_codes(values, cmd, fetch, esc_bits, top, numbits, rng, end_marker):
    """MMCMP adaptive-width code stream for `values` (each < top + 2**esc_bits), starting at width `numbits`"""
    w = _BitW()
    nw = len(cmd)

    def change(nb):
        nonlocal numbits
        f = fetch[numbits]
        w.put(cmd[numbits] + (nb >> f), numbits + 1)
        w.put(nb & ((1 << f) - 1), f)
        if nb != numbits:
            numbits = nb
    for v in values:
        if v >= top:
            change(numbits)                      # "same width" escape, then esc_bits bits
            x = v - top
            w.put(x, esc_bits)
            if x == (1 << esc_bits) - 1:
                w.put(0, 1)                      # not the end marker
            continue
        need = next(k for k in range(nw) if v < cmd[k])
        if v >= cmd[numbits] or (rng is not None and rng.random() < 0.05):
            nb = need if rng is None or rng.random() < 0.7 else rng.randint(need, nw - 1)
            if nb != numbits:
                change(nb)
        w.put(v, numbits + 1)
    if end_marker:
        change(numbits)
        w.put((1 << esc_bits) - 1, esc_bits)
        w.put(1, 1)
    return w.done()


def mmcmp_block(subs, kind="stored", delta=False, abs16=False, numbits=None, rng=None, end_marker=False, table="freq"):
    """one MMCMP block.  subs: list of (unpk_pos, bytes).  kind: "stored" | "8bit" | "16bit" (16-bit: even sizes).
    Returns the block bytes (header + sub-block table + data)."""
    data = b"".join(d for _, d in subs)
    flags = 0
    tt = 0
    nb0 = 0
    if kind == "stored":
        body = data
    elif kind == "8bit":
        flags = MMCMP_COMP | (MMCMP_DELTA if delta else 0)
        syms = []
        prev = 0
        for b in data:
            if delta:
                syms.append((b - prev) & 0xff)
                prev = b
            else:
                syms.append(b)
        if table == "identity":
            tab = list(range(256))
        else:
            freq = {}
            for x in syms:
                freq[x] = freq.get(x, 0) + 1
            tab = sorted(freq, key=lambda x: (-freq[x], x))
        inv = {x: i for i, x in enumerate(tab)}
        tt = len(tab)
        nb0 = numbits if numbits is not None else (rng.randint(0, 7) if rng else 7)
        body = bytes(tab) + _mm_codes([inv[x] for x in syms], MM_CMD8, MM_FETCH8, 3, 0xf8, nb0, rng, end_marker)
    else:
        assert all(len(d) % 2 == 0 for _, d in subs)
        flags = MMCMP_COMP | MMCMP_16BIT | (MMCMP_DELTA if delta else 0) | (MMCMP_ABS16 if abs16 else 0)
        vals = []
        prev = 0
        for i in range(0, len(data), 2):
            wv = data[i] | (data[i + 1] << 8)
            if delta:
                x = (wv - prev) & 0xffff
                prev = wv
            elif abs16:
                x = wv
            else:
                x = wv ^ 0x8000
            sgn = x - 0x10000 if x >= 0x8000 else x
            vals.append(2 * sgn if sgn >= 0 else -2 * sgn - 1)
        nb0 = numbits if numbits is not None else (rng.randint(0, 15) if rng else 15)
        body = _mm_codes(vals, MM_CMD16, MM_FETCH16, 4, 0xfff0, nb0, rng, end_marker)
    xor = 0
    for b in body:
        xor ^= b
    bh = struct.pack("<IIIHHHH", len(data), len(body), xor, len(subs), flags, tt, nb0)
    for pos, d in subs:
        bh += struct.pack("<II", pos, len(d))
    return bh + body


def mmcmp_file(p, blocks):
    """blocks: list of block byte strings from mmcmp_block (their sub-blocks must tile the payload `p`)"""
    hdr_len = 24
    body = b""
    offs = []
    for b in blocks:
        offs.append(hdr_len + len(body))
        body += b
    hdr = b"ziRCONia" + struct.pack("<HHHIIBB", 14, 0x1300, len(blocks), len(p), hdr_len + len(body), 0, 0)
    return hdr + body + b"".join(struct.pack("<I", o) for o in offs)


def mmcmp_packed(p, rng, max_block=5000, kinds=("stored", "8bit", "16bit")):
    """a whole MMCMP file with a random mix of stored / 8-bit / 16-bit blocks, with and without DELTA / ABS16, several
    sub-blocks per block (written in shuffled order inside the block)"""
    blocks = []
    q = 0
    desc = []
    while q < len(p):
        n = min(len(p) - q, rng.choice([1, 2, 7, 64, 333, max_block]))
        kind = rng.choice(kinds)
        if kind == "16bit":
            n -= n % 2
            if n == 0:
                kind = "8bit"
                n = 1
        chunk = p[q:q + n]
        cuts = sorted(set([0, n] + [rng.randrange(0, n + 1) for _ in range(rng.choice([0, 0, 1, 2, 4]))]))
        if kind == "16bit":
            cuts = sorted(set(c - c % 2 for c in cuts))
        subs = [(q + a, chunk[a:b]) for a, b in zip(cuts, cuts[1:]) if b > a]
        if rng.random() < 0.3:
            rng.shuffle(subs)
        delta = rng.random() < 0.5
        abs16 = rng.random() < 0.5
        blocks.append(mmcmp_block(subs, kind, delta=delta, abs16=abs16, rng=rng, end_marker=rng.random() < 0.2,
                                  table=rng.choice(["freq", "freq", "identity"])))
        desc.append("%s%s%s/%d" % (kind, "+d" if delta and kind != "stored" else "", "+a" if abs16 and kind == "16bit" else "", len(subs)))
        q += n
    return mmcmp_file(p, blocks), desc
