#!/usr/bin/env python3
"""Independent archive / packer *encoders* for the C08 oracle (none of this code comes from libxmp).

Every writer takes the payload bytes (and options) and returns the archive bytes.
Library encoders: zlib (raw deflate), bz2, lzma, zipfile.  Own writers: gzip member header
(FTEXT/FHCRC/FEXTRA/FNAME/FCOMMENT), compress(1) LZW 9..16 bit (block mode, CLEAR codes),
LHA -lh0- header levels 0/1/2, ARC/Spark stored + RLE90 (methods 1/2/3, 0x82/0x83), ArcFS stored/RLE90,
LZX stored, PowerPacker PP20 (literals + matches), MMCMP stored + bit-packed blocks, LHA -lh4-/-lh5-/-lh6-/-lh7-
(LZ77 incl. matches into the blank dictionary in front of the file + static Huffman blocks), ARC squeeze (Huffman node
table over RLE90), ARC crunch / squash / Spark compress (LZW 9..16 bit in groups of 8 codes), xz / LZMA2 with a
chosen chunk layout (`xz_own`: container + LZMA range encoder; uncompressed and LZMA chunks, any dictionary size),
LHA -lh1- (`lh1_encode`: LZSS 4 KiB + adaptive Huffman with tree rebuilds, static position code).
"""
import bz2
import io
import lzma
import struct
import zipfile
import zlib


# ------------------------------------------------------------------ check codes
def crc16_arc(data, crc=0):
    for b in data:
        crc ^= b
        for _ in range(8):
            crc = (crc >> 1) ^ 0xA001 if crc & 1 else crc >> 1
    return crc


_CRC16_TAB = None


def crc16_fast(data):
    global _CRC16_TAB
    if _CRC16_TAB is None:
        _CRC16_TAB = []
        for i in range(256):
            c = i
            for _ in range(8):
                c = (c >> 1) ^ 0xA001 if c & 1 else c >> 1
            _CRC16_TAB.append(c)
    crc = 0
    t = _CRC16_TAB
    for b in data:
        crc = (crc >> 8) ^ t[(crc ^ b) & 0xff]
    return crc


def crc32(data, c=0):
    return zlib.crc32(data, c) & 0xffffffff


# ------------------------------------------------------------------ gzip
FTEXT, FHCRC, FEXTRA, FNAME, FCOMMENT = 1, 2, 4, 8, 16


def raw_deflate(p, level=6, wbits=15, memlevel=8, strategy=0):
    co = zlib.compressobj(level, zlib.DEFLATED, -wbits, memlevel, strategy)
    return co.compress(p) + co.flush()


def gzip_member(p, level=6, wbits=15, memlevel=8, strategy=0, ftext=False, extra=None, name=None,
                comment=None, hcrc=False, mtime=0, xfl=0, osid=3):
    """RFC 1952 member.  extra: bytes or None; name/comment: bytes without NUL or None."""
    flg = (FTEXT if ftext else 0) | (FHCRC if hcrc else 0) | (FEXTRA if extra is not None else 0) | \
          (FNAME if name is not None else 0) | (FCOMMENT if comment is not None else 0)
    h = bytes([0x1f, 0x8b, 8, flg]) + struct.pack("<I", mtime & 0xffffffff) + bytes([xfl, osid])
    if extra is not None:
        h += struct.pack("<H", len(extra)) + extra
    if name is not None:
        h += name + b"\0"
    if comment is not None:
        h += comment + b"\0"
    if hcrc:
        h += struct.pack("<H", crc32(h) & 0xffff)
    d = raw_deflate(p, level, wbits, memlevel, strategy)
    return h + d + struct.pack("<II", crc32(p), len(p) & 0xffffffff), len(h), d


# ------------------------------------------------------------------ bzip2 / xz
def bzip2(p, level=9):
    return bz2.compress(p, level)


XZ_CHECKS = {"none": lzma.CHECK_NONE, "crc32": lzma.CHECK_CRC32, "crc64": lzma.CHECK_CRC64, "sha256": lzma.CHECK_SHA256}


def xz(p, check="crc32", preset=None, dict_size=None, lc=3, lp=0, pb=2, mode=None, nice_len=None, mf=None,
       depth=None, blocks=1):
    if dict_size is None and preset is not None:
        filters = None
    else:
        f = {"id": lzma.FILTER_LZMA2, "dict_size": dict_size or (1 << 20), "lc": lc, "lp": lp, "pb": pb}
        if preset is not None:
            f["preset"] = preset
        if mode is not None:
            f["mode"] = mode
        if nice_len is not None:
            f["nice_len"] = nice_len
        if mf is not None:
            f["mf"] = mf
        if depth is not None:
            f["depth"] = depth
        filters = [f]
    co = lzma.LZMACompressor(format=lzma.FORMAT_XZ, check=XZ_CHECKS[check],
                             preset=preset if filters is None else None, filters=filters)
    return co.compress(p) + co.flush()


# ------------------------------------------------------------------ xz / LZMA2, own writer with chosen chunk layout
# Independent of liblzma (which only referees it): .xz container (stream header, block header with the LZMA2 dictionary
# size, index, footer) around LZMA2 chunks whose kind the caller chooses piece by piece: *uncompressed* chunks
# (control 0x01 with dictionary reset / 0x02) and *LZMA* chunks (control 0xC0|size bits: state reset + new properties)
# written by a small LZMA range encoder (literals, matched literals, simple matches with every distance class).
class _RangeEnc:
    def __init__(s):
        s.low = 0
        s.range = 0xFFFFFFFF
        s.cache = 0
        s.cache_size = 1
        s.out = bytearray()

    def shift_low(s):
        if s.low < 0xFF000000 or s.low >= (1 << 32):
            carry = s.low >> 32
            s.out.append((s.cache + carry) & 0xff)
            for _ in range(s.cache_size - 1):
                s.out.append((0xff + carry) & 0xff)
            s.cache_size = 0
            s.cache = (s.low >> 24) & 0xff
        s.cache_size += 1
        s.low = (s.low & 0x00FFFFFF) << 8

    def bit(s, probs, i, b):
        p = probs[i]
        bound = (s.range >> 11) * p
        if b == 0:
            s.range = bound
            probs[i] = p + ((2048 - p) >> 5)
        else:
            s.low += bound
            s.range -= bound
            probs[i] = p - (p >> 5)
        while s.range < (1 << 24):
            s.range = (s.range << 8) & 0xFFFFFFFF
            s.shift_low()

    def direct(s, v, nb):
        for i in range(nb - 1, -1, -1):
            s.range >>= 1
            if (v >> i) & 1:
                s.low += s.range
            while s.range < (1 << 24):
                s.range = (s.range << 8) & 0xFFFFFFFF
                s.shift_low()

    def finish(s):
        for _ in range(5):
            s.shift_low()
        return bytes(s.out)


def _bittree(rc, probs, base, nb, v):
    m = 1
    for i in range(nb - 1, -1, -1):
        b = (v >> i) & 1
        rc.bit(probs, base + m, b)
        m = (m << 1) | b


def _bittree_rev(rc, probs, base, nb, v):
    m = 1
    for i in range(nb):
        b = (v >> i) & 1
        rc.bit(probs, base + m, b)
        m = (m << 1) | b


def lzma_chunk(hist, toks, lc=3, lp=0, pb=2):
    """range-coded LZMA data of the tokens (int literal | (distance-1, length)) that follow the history `hist`
    (everything since the last dictionary reset); coder state and probabilities start fresh.  Returns (bytes, data)."""
    rc = _RangeEnc()
    is_match = [1024] * (12 * 16)
    is_rep = [1024] * 12
    dist_slot = [1024] * (4 * 64)
    dist_special = [1024] * 128
    dist_align = [1024] * 16
    len_choice = [1024, 1024]
    len_low = [1024] * (16 * 8)
    len_mid = [1024] * (16 * 8)
    len_high = [1024] * 256
    literal = [1024] * (0x300 << (lc + lp))
    state = 0
    rep0 = 0
    out = bytearray(hist)
    for t in toks:
        pos = len(out)
        ps = pos & ((1 << pb) - 1)
        if isinstance(t, int):
            rc.bit(is_match, state * 16 + ps, 0)
            prev = out[-1] if out else 0
            base = 0x300 * (((pos & ((1 << lp) - 1)) << lc) + (prev >> (8 - lc)))
            if state < 7:
                _bittree(rc, literal, base, 8, t)
            else:
                match_byte = out[pos - rep0 - 1] << 1
                offset = 0x100
                symbol = 1
                for i in range(7, -1, -1):
                    b = (t >> i) & 1
                    match_bit = match_byte & offset
                    match_byte <<= 1
                    rc.bit(literal, base + offset + match_bit + symbol, b)
                    symbol = (symbol << 1) | b
                    offset = (offset & match_bit) if b else (offset & ~match_bit)
            out.append(t)
            state = 0 if state < 4 else (state - 3 if state < 10 else state - 6)
        else:
            d, ln = t
            assert 2 <= ln <= 273 and 0 <= d < pos
            rc.bit(is_match, state * 16 + ps, 1)
            rc.bit(is_rep, state, 0)
            l2 = ln - 2
            if l2 < 8:
                rc.bit(len_choice, 0, 0)
                m = 1
                for i in (2, 1, 0):
                    b = (l2 >> i) & 1
                    rc.bit(len_low, ps * 8 + m, b)
                    m = (m << 1) | b
            elif l2 < 16:
                rc.bit(len_choice, 0, 1)
                rc.bit(len_choice, 1, 0)
                m = 1
                for i in (2, 1, 0):
                    b = ((l2 - 8) >> i) & 1
                    rc.bit(len_mid, ps * 8 + m, b)
                    m = (m << 1) | b
            else:
                rc.bit(len_choice, 0, 1)
                rc.bit(len_choice, 1, 1)
                _bittree(rc, len_high, 0, 8, l2 - 16)
            ds = min(l2, 3)
            if d < 4:
                slot = d
            else:
                n = d.bit_length()
                slot = 2 * (n - 1) + ((d >> (n - 2)) & 1)
            _bittree(rc, dist_slot, ds * 64, 6, slot)
            if slot >= 4:
                footer = (slot >> 1) - 1
                basev = (2 | (slot & 1)) << footer
                if slot < 14:
                    _bittree_rev(rc, dist_special, basev - slot - 1, footer, d - basev)
                else:
                    rc.direct((d - basev) >> 4, footer - 4)
                    _bittree_rev(rc, dist_align, 0, 4, (d - basev) & 15)
            rep0 = d
            for _ in range(ln):
                out.append(out[len(out) - d - 1])
            state = 7 if state < 7 else 10
    return rc.finish(), bytes(out[len(hist):])


def lz_parse(buf, start, end, dict_size, rng=None, max_match=273, chain=12):
    """greedy LZ77 tokens for buf[start:end] with the history buf[:start] (distances up to dict_size)"""
    heads = {}
    for k in range(max(0, start - dict_size), start):
        if k + 3 <= end:
            heads.setdefault(buf[k:k + 3], []).append(k)
    toks = []
    i = start
    while i < end:
        best_len, best_d = 0, 0
        if i + 3 <= end:
            cl = heads.get(buf[i:i + 3])
            if cl:
                lim = min(max_match, end - i)
                tried = 0
                for q in reversed(cl):
                    d = i - q
                    if d > dict_size:
                        break
                    ln = 3
                    while ln < lim and buf[q + ln] == buf[i + ln]:
                        ln += 1
                    if ln > best_len or (ln == best_len and rng is not None and rng.random() < 0.5):
                        best_len, best_d = ln, d
                    tried += 1
                    if tried >= chain:
                        break
        if best_len >= 3:
            toks.append((best_d - 1, best_len))
            step = best_len
        else:
            toks.append(buf[i])
            step = 1
        for k in range(i, i + step):
            if k + 3 <= end:
                heads.setdefault(buf[k:k + 3], []).append(k)
        i += step
    return toks


def _xz_varint(v):
    out = bytearray()
    while v >= 0x80:
        out.append((v & 0x7f) | 0x80)
        v >>= 7
    out.append(v)
    return bytes(out)


def xz_dict_byte(dict_size):
    for b in range(41):
        if ((2 | (b & 1)) << (b // 2 + 11)) == dict_size:
            return b
    raise ValueError(dict_size)


def xz_own(p, pieces, dict_size=4096, check="crc32", lc=3, lp=0, pb=2, rng=None):
    """.xz file of `p`.  pieces: list of (length, kind) covering p, kind "raw" (uncompressed LZMA2 chunks) or "lz"
    (LZMA chunks; matches reach back up to dict_size into everything written before).  Returns (file, chunk kinds)."""
    assert sum(n for n, _ in pieces) == len(p)
    body = bytearray()
    pos = 0
    first = True
    need_props = True
    kinds = []
    for n, kind in pieces:
        endp = pos + n
        while pos < endp:
            if kind == "raw":
                k = min(endp - pos, 1 << 16)
                body += bytes([1 if first else 2]) + struct.pack(">H", k - 1) + p[pos:pos + k]
                if first:
                    need_props = True
                first = False
                pos += k
                kinds.append("raw")
            else:
                k = min(endp - pos, 1 << 15)
                while True:
                    toks = lz_parse(p, pos, pos + k, dict_size, rng)
                    cdata, data = lzma_chunk(p[:pos], toks, lc, lp, pb)
                    if len(cdata) <= (1 << 16):
                        break
                    k //= 2
                assert data == p[pos:pos + k]
                ctl = 0x80 | ((3 if first else 2) << 5) | (((k - 1) >> 16) & 0x1f)
                body += bytes([ctl]) + struct.pack(">HH", (k - 1) & 0xffff, len(cdata) - 1) + bytes([(pb * 5 + lp) * 9 + lc]) + cdata
                first = False
                need_props = False
                pos += k
                kinds.append("lz")
    body += b"\0"
    chk = {"none": 0, "crc32": 1, "crc64": 4}[check]
    flags = bytes([0, chk])
    hdr = b"\xfd7zXZ\0" + flags + struct.pack("<I", crc32(flags))
    bh = bytes([0x02, 0x00, 0x21, 0x01, xz_dict_byte(dict_size)]) + b"\0" * 3
    bh += struct.pack("<I", crc32(bh))
    if chk == 1:
        cv = struct.pack("<I", crc32(p))
    elif chk == 4:
        cv = struct.pack("<Q", _crc64(p))
    else:
        cv = b""
    unpadded = len(bh) + len(body) + len(cv)
    block = bh + bytes(body) + b"\0" * ((-len(body)) % 4) + cv
    idx = b"\0" + _xz_varint(1) + _xz_varint(unpadded) + _xz_varint(len(p))
    idx += b"\0" * ((-len(idx)) % 4)
    idx += struct.pack("<I", crc32(idx))
    bs = struct.pack("<I", len(idx) // 4 - 1)
    foot = struct.pack("<I", crc32(bs + flags)) + bs + flags + b"YZ"
    return hdr + block + idx + foot, kinds


def xz_mixed_payload(rng, dict_size, rounds=4):
    """(payload, pieces) for xz_own: incompressible stretches longer than the dictionary (stored as uncompressed chunks,
    the dictionary wraps inside them) alternate with LZMA-coded stretches that repeat earlier data at distances up to the
    full dictionary size -- right after a wrap, in the middle of a pass, and long enough to wrap inside the LZMA chunk."""
    D = dict_size
    out = bytearray()
    pieces = []
    for r in range(rounds):
        n = D + rng.choice([0, 1, 17, 4095, 4096, 4097, rng.randrange(1, 70000)]) if r == 0 or rng.random() < 0.6 else rng.randrange(1, D)
        out += bytes(rng.getrandbits(8) for _ in range(n))
        pieces.append((n, "raw"))
        k0 = len(out)
        out += bytes(rng.getrandbits(8) for _ in range(rng.choice([0, 0, 1, 3])))
        for _ in range(rng.choice([1, 2, 4])):
            d = D - rng.choice([0, 0, 1, 2, 15, 100, 1000, 2047, 4000, 4095, rng.randrange(D)])
            d = min(max(d, 1), len(out))
            ln = rng.choice([3, 8, 40, 273, 600, d, D + 100])
            st = len(out) - d
            for i in range(ln):
                out.append(out[st + i])
            out += bytes(rng.getrandbits(8) for _ in range(rng.choice([0, 1, 2, 30])))
        pieces.append((len(out) - k0, "lz"))
    return bytes(out), pieces


def _crc64(data):
    tab = _crc64.tab
    if tab is None:
        tab = []
        for i in range(256):
            c = i
            for _ in range(8):
                c = (c >> 1) ^ 0xC96C5795D7870F42 if c & 1 else c >> 1
            tab.append(c)
        _crc64.tab = tab
    c = 0xFFFFFFFFFFFFFFFF
    for b in data:
        c = tab[(c ^ b) & 0xff] ^ (c >> 8)
    return c ^ 0xFFFFFFFFFFFFFFFF


_crc64.tab = None


# ------------------------------------------------------------------ zip
def zip_archive(members, method="deflated", level=6, comment=b"", zip64=False):
    """members: list of (name str, bytes, method or None).  Order = central directory order."""
    bio = io.BytesIO()
    m0 = zipfile.ZIP_DEFLATED if method == "deflated" else zipfile.ZIP_STORED
    with zipfile.ZipFile(bio, "w", m0, allowZip64=True) as z:
        for name, data, meth in members:
            mm = m0 if meth is None else (zipfile.ZIP_DEFLATED if meth == "deflated" else zipfile.ZIP_STORED)
            zi = zipfile.ZipInfo(name, date_time=(1996, 1, 1, 0, 0, 0))
            zi.compress_type = mm
            if name.endswith("/"):
                zi.external_attr = 0x10
                z.writestr(zi, b"")
            elif zip64:
                with z.open(zi, "w", force_zip64=True) as f:
                    f.write(data)
            else:
                z.writestr(zi, data, compress_type=mm, compresslevel=level if mm == zipfile.ZIP_DEFLATED else None)
        z.comment = comment
    return bio.getvalue()


def zip_streamed(members, level=6):
    """zip written to an unseekable stream: local headers carry flag bit 3 + data descriptors."""
    class W(io.RawIOBase):
        def __init__(s):
            s.b = bytearray()

        def writable(s):
            return True

        def write(s, d):
            s.b += d
            return len(d)

        def seekable(s):
            return False
    w = W()
    with zipfile.ZipFile(w, "w", zipfile.ZIP_DEFLATED) as z:
        for name, data, meth in members:
            zi = zipfile.ZipInfo(name, date_time=(1996, 1, 1, 0, 0, 0))
            zi.compress_type = zipfile.ZIP_STORED if meth == "stored" else zipfile.ZIP_DEFLATED
            with z.open(zi, "w") as f:
                f.write(data)
    return bytes(w.b)


# ------------------------------------------------------------------ compress(1) LZW
def compress_lzw(p, maxbits=16, block_mode=True, clear_every=0, header=True, first_byte_bits=False):
    """compress(1) .Z stream (magic 1f 9d, flags = maxbits | 0x80 block mode).  `clear_every` > 0 emits a
    CLEAR code (256) after that many codes once the table is full (block mode only).  Code widths grow
    9..maxbits; at every width change / CLEAR the output is padded to a multiple of n_bits bytes since the
    last such point, as compress(1) does (codes are written in groups of 8)."""
    assert 9 <= maxbits <= 16
    out = bytearray()
    if header:
        out += bytes([0x1f, 0x9d, maxbits | (0x80 if block_mode else 0)])
    elif first_byte_bits:
        out += bytes([maxbits])
    acc = 0
    nacc = 0
    group_bits = 0          # bits written since last alignment point
    n_bits = 9
    maxmaxcode = 1 << maxbits
    first = 257 if block_mode else 256

    def maxcode_for(nb):
        return maxmaxcode if nb == maxbits else (1 << nb) - 1

    maxcode = maxcode_for(9)
    dec_free = first        # the decoder's free_ent seen before reading the next code
    ncodes = 0              # codes since start / last CLEAR

    def put(code, nb):
        nonlocal acc, nacc, group_bits
        acc |= code << nacc
        nacc += nb
        group_bits += nb
        while nacc >= 8:
            out.append(acc & 0xff)
            acc >>= 8
            nacc -= 8

    def align(nb):
        nonlocal acc, nacc, group_bits
        unit = nb * 8
        pad = (-group_bits) % unit
        while pad > 0:
            k = min(pad, 16)
            put(0, k)
            pad -= k
        assert nacc == 0
        group_bits = 0

    def emit(code):
        nonlocal n_bits, maxcode, dec_free, ncodes
        # decoder checks the width before reading each code
        if dec_free > maxcode:
            align(n_bits)
            n_bits += 1
            maxcode = maxcode_for(n_bits)
        put(code, n_bits)
        ncodes += 1
        if ncodes > 1 and dec_free < maxmaxcode:
            dec_free += 1

    table = {}
    free_ent = first
    since_full = 0
    if not p:
        return bytes(out)
    ent = p[0]
    for c in p[1:]:
        key = (ent << 8) | c
        if key in table:
            ent = table[key]
            continue
        emit(ent)
        if free_ent < maxmaxcode:
            table[key] = free_ent
            free_ent += 1
        elif block_mode and clear_every:
            since_full += 1
            if since_full >= clear_every:
                # CLEAR: decoder sets free_ent = 256, pads, n_bits = 9; the next code creates a junk entry 256
                if dec_free > maxcode:      # cannot happen when the table is full, kept for safety
                    align(n_bits)
                    n_bits += 1
                    maxcode = maxcode_for(n_bits)
                put(256, n_bits)
                align(n_bits)
                n_bits = 9
                maxcode = maxcode_for(9)
                dec_free = 256
                ncodes = 1          # the next code makes the decoder add (junk) entry 256 -> free_ent 257
                table = {}
                free_ent = first
                since_full = 0
        ent = c
    emit(ent)
    if nacc:
        out.append(acc & 0xff)
    return bytes(out)


# ------------------------------------------------------------------ LHA -lh0-
def _dos_time():
    return struct.pack("<I", (16 << 25) | (1 << 21) | (1 << 16))


def lha_member(name, data, level=0, method=b"-lh0-", osid=b"U", packed=None):
    """`packed`: the compressed stream of `data` for the methods -lh4- .. -lh7- (see lh_new_encode)"""
    nm = name.encode("latin-1") if isinstance(name, str) else name
    crc = crc16_fast(data)
    cdata = data if packed is None else packed
    if level == 0:
        body = method + struct.pack("<II", len(cdata), len(data)) + _dos_time() + bytes([0x20, 0]) + \
            bytes([len(nm)]) + nm + struct.pack("<H", crc)
        return bytes([len(body), sum(body) & 0xff]) + body + cdata
    if level == 1:
        body = method + struct.pack("<II", len(cdata), len(data)) + _dos_time() + bytes([0x20, 1]) + \
            bytes([len(nm)]) + nm + struct.pack("<H", crc) + osid + struct.pack("<H", 0)
        return bytes([len(body), sum(body) & 0xff]) + body + cdata
    if level == 2:
        ext = struct.pack("<H", 3 + len(nm)) + b"\x01" + nm + struct.pack("<H", 0)
        fixed = method + struct.pack("<II", len(cdata), len(data)) + struct.pack("<I", 820454400) + \
            bytes([0x20, 2]) + struct.pack("<H", crc) + osid
        total = 2 + len(fixed) + len(ext)
        pad = b""
        if total & 0xff == 0:
            pad = b"\0"
            total += 1
        return struct.pack("<H", total) + fixed + ext + pad + cdata
    raise ValueError(level)


def lha_dir(name, level=1):
    nm = (name.rstrip("/") + "\xff").encode("latin-1")
    if level == 0:
        nm = (name.rstrip("/") + "/").encode("latin-1")      # level 0 stores the path with a trailing separator
        body = b"-lhd-" + struct.pack("<II", 0, 0) + _dos_time() + bytes([0x20, 0]) + bytes([len(nm)]) + nm + \
            struct.pack("<H", 0)
        return bytes([len(body), sum(body) & 0xff]) + body
    # level 1 with a path extended header (type 2)
    ext = b"\x02" + nm + struct.pack("<H", 0)
    body = b"-lhd-" + struct.pack("<II", len(ext), 0) + _dos_time() + bytes([0x20, 1]) + bytes([0]) + \
        struct.pack("<H", 0) + b"U" + struct.pack("<H", len(ext))
    return bytes([len(body), sum(body) & 0xff]) + body + ext


def lha_archive(members, level=0, osid=b"U"):
    """members: list of (name, data) or (name, data, method, packed); name ending in '/' = directory entry."""
    out = b""
    for m in members:
        name, data = m[0], m[1]
        if name.endswith("/"):
            out += lha_dir(name, 1 if level else 0)
        elif len(m) > 2:
            out += lha_member(name, data, level, method=m[2], osid=osid, packed=m[3])
        else:
            out += lha_member(name, data, level, osid=osid)
    return out + b"\0"


# ------------------------------------------------------------------ LHA -lh4- / -lh5- / -lh6- / -lh7- ("new" static Huffman)
# Format (LHA 2.x, H. Okumura's ar002): LZ77 over a sliding dictionary that is defined to contain BLANKS (0x20) before
# the first byte of the file -- a match may reach back before byte 0 -- then, per block of up to 65535 commands, three
# canonical Huffman tables (code lengths of the code-length alphabet, code lengths of the 510 literal/length codes
# written with that alphabet and zero-run codes, code lengths of the offset-width alphabet) followed by the commands.
# Bits are written MSB first.
LH_NEW = {b"-lh4-": (1 << 12, 4), b"-lh5-": (1 << 13, 4), b"-lh6-": (1 << 15, 5), b"-lh7-": (1 << 16, 5)}


class _BitWM:
    """MSB-first bit writer"""
    def __init__(s):
        s.out = bytearray()
        s.acc = 0
        s.n = 0

    def put(s, v, nb):
        if nb == 0:
            return
        assert 0 <= v < (1 << nb), (v, nb)
        s.acc = (s.acc << nb) | v
        s.n += nb
        while s.n >= 8:
            s.n -= 8
            s.out.append((s.acc >> s.n) & 0xff)
        s.acc &= (1 << s.n) - 1

    def done(s):
        if s.n:
            s.out.append((s.acc << (8 - s.n)) & 0xff)
            s.n = 0
            s.acc = 0
        return bytes(s.out)


def huff_lengths(freq, limit=16):
    """code lengths of a Huffman code for the symbols with freq > 0 (at least two), no length above `limit`"""
    import heapq
    f = list(freq)
    while True:
        heap = [(x, i, (i,)) for i, x in enumerate(f) if x]
        assert len(heap) >= 2
        heapq.heapify(heap)
        depth = [0] * len(f)
        tie = len(f)
        while len(heap) > 1:
            a = heapq.heappop(heap)
            b = heapq.heappop(heap)
            for sy in a[2] + b[2]:
                depth[sy] += 1
            heapq.heappush(heap, (a[0] + b[0], tie, a[2] + b[2]))
            tie += 1
        if max(depth) <= limit:
            return depth
        f = [(x + 1) // 2 if x else 0 for x in f]


def canonical_codes(lengths):
    """canonical prefix code: shorter codes first, equal lengths in symbol order, numerically increasing"""
    codes = {}
    code = 0
    last = 0
    for ln, sy in sorted((l, i) for i, l in enumerate(lengths) if l):
        code <<= (ln - last)
        last = ln
        codes[sy] = (code, ln)
        code += 1
    return codes


def lz_tokens(data, dict_size, rng=None, max_match=256, prefile=b" ", chain=8, skip_prob=0.0):
    """greedy LZ77: tokens are ints (literal) or (offset, length) with source start = position - offset - 1; with
    `prefile` the dictionary in front of the file consists of that byte and matches may start there"""
    pre = prefile * dict_size if prefile else b""
    buf = pre + data
    base = len(pre)
    n = len(buf)
    heads = {}
    if pre:
        cands = sorted(set(q for q in (0, base - 4097, base - 300, base - 256, base - 17, base - 3, base - 2, base - 1) if 0 <= q < base))
        for q in cands:
            if q + 3 <= n:
                heads.setdefault(buf[q:q + 3], []).append(q)
    toks = []
    i = base
    while i < n:
        best_len, best_d = 0, 0
        if i + 3 <= n:
            cl = heads.get(buf[i:i + 3])
            if cl:
                lim = min(max_match, n - i)
                tried = 0
                for q in reversed(cl):
                    d = i - q
                    if d > dict_size:
                        break
                    ln = 3
                    while ln < lim and buf[q + ln] == buf[i + ln]:
                        ln += 1
                    if ln > best_len or (ln == best_len and rng is not None and rng.random() < 0.3):
                        best_len, best_d = ln, d
                    tried += 1
                    if tried >= chain:
                        break
        if best_len >= 3 and not (skip_prob and rng is not None and rng.random() < skip_prob):
            if rng is not None and best_len > 3 and rng.random() < 0.1:
                best_len = rng.randint(3, best_len)
            toks.append((best_d - 1, best_len))
            step = best_len
        else:
            toks.append(buf[i])
            step = 1
        for k in range(i, i + step):
            if k + 3 <= n:
                heads.setdefault(buf[k:k + 3], []).append(k)
        i += step
    return toks


def lz_expand(toks, prefile=b" "):
    """reference expansion of a token list (used to referee the tokenizer)"""
    out = bytearray()
    for t in toks:
        if isinstance(t, int):
            out.append(t)
        else:
            off, ln = t
            for _ in range(ln):
                q = len(out) - off - 1
                out.append(out[q] if q >= 0 else prefile[0])
    return bytes(out)


# ------------------------------------------------------------------ LHA -lh1- (LZHUF: 4 KiB LZSS + adaptive Huffman)
# Format (LHarc 1.x / H. Okumura + H. Yoshizaki's LZHUF): 314 codes (256 literals, copy lengths 3..60) coded with an
# adaptive Huffman tree whose frequencies are halved and whose shape is rebuilt whenever the root count reaches 0x8000;
# a copy is followed by its position: upper 6 bits through a fixed prefix code (3..8 bits), lower 6 bits verbatim.
# The 4 KiB dictionary in front of the file holds blanks.  Bits MSB first.
LH1_N, LH1_F, LH1_NCHAR = 4096, 60, 314
LH1_T = LH1_NCHAR * 2 - 1
LH1_R = LH1_T - 1
LH1_MAXFREQ = 0x8000
_LH1_PLEN = [3] + [4] * 3 + [5] * 8 + [6] * 12 + [7] * 24 + [8] * 16


def _lh1_pcodes():
    codes, c = [], 0
    for ln in _LH1_PLEN:
        codes.append(c >> (8 - ln))
        c += 1 << (8 - ln)
    return codes


_LH1_PCODE = _lh1_pcodes()


class _Lh1Tree:
    def __init__(s):
        T, R, NC = LH1_T, LH1_R, LH1_NCHAR
        s.freq = [0] * (T + 1)
        s.prnt = [0] * (T + NC)
        s.son = [0] * T
        for i in range(NC):
            s.freq[i] = 1
            s.son[i] = i + T
            s.prnt[i + T] = i
        i, j = 0, NC
        while j <= R:
            s.freq[j] = s.freq[i] + s.freq[i + 1]
            s.son[j] = i
            s.prnt[i] = s.prnt[i + 1] = j
            i += 2
            j += 1
        s.freq[T] = 0xffff
        s.prnt[R] = 0
        s.rebuilds = 0

    def reconst(s):
        T, NC = LH1_T, LH1_NCHAR
        freq, son, prnt = s.freq, s.son, s.prnt
        j = 0
        for i in range(T):
            if son[i] >= T:
                freq[j] = (freq[i] + 1) // 2
                son[j] = son[i]
                j += 1
        i, j = 0, NC
        while j < T:
            f = freq[i] + freq[i + 1]
            k = j - 1
            while f < freq[k]:
                k -= 1
            k += 1
            freq[k + 1:j + 1] = freq[k:j]
            freq[k] = f
            son[k + 1:j + 1] = son[k:j]
            son[k] = i
            i += 2
            j += 1
        for i in range(T):
            k = son[i]
            if k >= T:
                prnt[k] = i
            else:
                prnt[k] = prnt[k + 1] = i
        s.rebuilds += 1

    def code(s, c):
        """bits (root first) of symbol c in the current tree"""
        bits = []
        k = s.prnt[c + LH1_T]
        while True:
            bits.append(k & 1)
            k = s.prnt[k]
            if k == LH1_R:
                break
        bits.reverse()
        return bits

    def update(s, c):
        freq, son, prnt, T = s.freq, s.son, s.prnt, LH1_T
        if freq[LH1_R] == LH1_MAXFREQ:
            s.reconst()
        c = prnt[c + T]
        while True:
            freq[c] += 1
            k = freq[c]
            l = c + 1
            if k > freq[l]:
                while k > freq[l + 1]:
                    l += 1
                freq[c] = freq[l]
                freq[l] = k
                i = son[c]
                prnt[i] = l
                if i < T:
                    prnt[i + 1] = l
                j = son[l]
                son[l] = i
                prnt[j] = c
                if j < T:
                    prnt[j + 1] = c
                son[c] = j
                c = l
            c = prnt[c]
            if c == 0:
                break


def lh1_encode(data, rng=None, toks=None):
    """-lh1- stream of `data`; returns (stream, tokens, number of tree rebuilds)"""
    if toks is None:
        toks = lz_tokens(data, LH1_N - LH1_F, rng, max_match=LH1_F, prefile=b" ", skip_prob=0.03 if rng else 0.0)
    assert lz_expand(toks) == data
    w = _BitWM()
    tree = _Lh1Tree()
    for t in toks:
        if isinstance(t, int):
            c = t
        else:
            off, ln = t
            assert 3 <= ln <= LH1_F and 0 <= off < LH1_N
            c = 253 + ln
        for b in tree.code(c):
            w.put(b, 1)
        tree.update(c)
        if not isinstance(t, int):
            w.put(_LH1_PCODE[off >> 6], _LH1_PLEN[off >> 6])
            w.put(off & 0x3f, 6)
    return w.done(), toks, tree.rebuilds


def _lh_put_len(w, k):
    if k < 7:
        w.put(k, 3)
    else:
        w.put(7, 3)
        for _ in range(k - 7):
            w.put(1, 1)
        w.put(0, 1)


def lh_new_block(w, toks, offset_bits, rng=None):
    """one block: command count, the three tables, the commands"""
    NC = 510
    cfreq = [0] * NC
    pfreq = [0] * ((1 << offset_bits) - 1)
    for t in toks:
        if isinstance(t, int):
            cfreq[t] += 1
        else:
            off, ln = t
            cfreq[256 + ln - 3] += 1
            pfreq[off.bit_length()] += 1
    w.put(len(toks), 16)
    # literal/length code
    used = [i for i, x in enumerate(cfreq) if x]
    if len(used) == 1:
        clen, ccode = None, {used[0]: (0, 0)}
    else:
        clen = huff_lengths(cfreq, 16)
        ccode = canonical_codes(clen)
    if clen is None:
        # temp table: a single code of length zero, then the code table likewise
        w.put(0, 5)
        w.put(0, 5)
        w.put(0, 9)
        w.put(used[0], 9)
    else:
        n = max(used) + 1
        # run-length symbols of the code-length alphabet: 0 = one zero, 1 = 3..18 zeros, 2 = 20.. zeros, k+2 = length k
        syms = []
        i = 0
        compact = rng is None or rng.random() < 0.8
        while i < n:
            k = clen[i]
            i += 1
            if k:
                syms.append((k + 2, None))
                continue
            cnt = 1
            while i < n and clen[i] == 0:
                i += 1
                cnt += 1
            if not compact or cnt <= 2:
                syms += [(0, None)] * cnt
            elif cnt <= 18:
                syms.append((1, (cnt - 3, 4)))
            elif cnt == 19:
                syms.append((0, None))
                syms.append((1, (15, 4)))
            else:
                syms.append((2, (cnt - 20, 9)))
        tfreq = [0] * 19
        for sy, _ in syms:
            tfreq[sy] += 1
        tused = [i for i, x in enumerate(tfreq) if x]
        if len(tused) == 1:
            w.put(0, 5)
            w.put(tused[0], 5)
            tcode = {tused[0]: (0, 0)}
        else:
            tlen = huff_lengths(tfreq, 16)
            tcode = canonical_codes(tlen)
            tn = max(tused) + 1
            w.put(tn, 5)
            i = 0
            while i < tn:
                _lh_put_len(w, tlen[i])
                i += 1
                if i == 3:
                    z = 0
                    while i < 6 and i < 19 and tlen[i] == 0 and z < 3:
                        i += 1
                        z += 1
                    w.put(z, 2)
        w.put(n, 9)
        for sy, extra in syms:
            w.put(*tcode[sy])
            if extra:
                w.put(*extra)
    # offset-width code
    pused = [i for i, x in enumerate(pfreq) if x]
    if len(pused) <= 1:
        w.put(0, offset_bits)
        w.put(pused[0] if pused else 0, offset_bits)
        pcode = {pused[0]: (0, 0)} if pused else {}
    else:
        plen = huff_lengths(pfreq, 16)
        pcode = canonical_codes(plen)
        pn = max(pused) + 1
        w.put(pn, offset_bits)
        for i in range(pn):
            _lh_put_len(w, plen[i])
    for t in toks:
        if isinstance(t, int):
            w.put(*ccode[t])
        else:
            off, ln = t
            w.put(*ccode[256 + ln - 3])
            nb = off.bit_length()
            w.put(*pcode[nb])
            if nb > 1:
                w.put(off - (1 << (nb - 1)), nb - 1)


def lh_new_encode(data, method=b"-lh5-", rng=None, block_cmds=None, prefile=True, toks=None):
    """-lh4-/-lh5-/-lh6-/-lh7- stream of `data`; returns (stream, tokens)"""
    dict_size, offset_bits = LH_NEW[method]
    if toks is None:
        toks = lz_tokens(data, dict_size, rng, prefile=b" " if prefile else b"", skip_prob=0.03 if rng else 0.0)
    assert lz_expand(toks) == data
    if block_cmds is None:
        block_cmds = rng.choice([0xffff, 0xffff, 4000, 300, 7, 1]) if rng else 0xffff
    if len(toks) // block_cmds > 3000:
        block_cmds = 0xffff
    w = _BitWM()
    for i in range(0, len(toks), block_cmds):
        lh_new_block(w, toks[i:i + block_cmds], offset_bits, rng)
    return w.done(), toks


# ------------------------------------------------------------------ ARC / Spark, RLE90
def rle90_encode(p, max_run=255, literal_only=False):
    """ARC "packed" (method 3) stream: byte, or byte 0x90 count (count = total run length incl. the byte
    already written, 0 = literal 0x90)."""
    out = bytearray()
    i = 0
    n = len(p)
    while i < n:
        b = p[i]
        j = i
        while j < n and p[j] == b and j - i < max_run:
            j += 1
        run = j - i
        if b == 0x90:
            # a literal 0x90 is `90 00`; runs of 0x90 are written one by one (a count after the
            # escape pair would be read as data by classic decoders)
            for _ in range(run):
                out += b"\x90\x00"
        elif run >= 3 and not literal_only:
            out.append(b)
            out += bytes([0x90, run])
        else:
            out += bytes([b]) * run
        i = j
    return bytes(out)


# ------------------------------------------------------------------ ARC squeeze (method 4): Huffman over the RLE90 stream
# Format (SQ/USQ by R. Greenlaw as used by ARC): 16-bit node count, then per node two signed 16-bit children: a value >= 0
# is the index of another node, a negative value -(sym + 1) is a leaf; symbol 256 is the end-of-file marker (SPEOF) that
# ends the stream.  257 symbols => at most 256 nodes.  Code bits are written LSB first, bit 0 = left (first) child.
def squeeze_tree(freq, rng=None, shape="huffman"):
    """freq: 257 counts (EOF included, every count > 0 is a leaf).  Returns nested tree: int leaf | (left, right)."""
    import heapq
    syms = [i for i, x in enumerate(freq) if x]
    assert 256 in syms
    if len(syms) == 1:
        return (256, 256)            # a file without data: both branches of the only node end the stream
    if shape == "huffman":
        f = list(freq)
        while True:
            heap = [(f[sy], n, sy) for n, sy in enumerate(syms)]
            heapq.heapify(heap)
            tie = len(heap)
            while len(heap) > 1:
                a = heapq.heappop(heap)
                b = heapq.heappop(heap)
                heapq.heappush(heap, (a[0] + b[0], tie, (a[2], b[2])))
                tie += 1
            tree = heap[0][2]

            def depth(t):
                return 0 if isinstance(t, int) else 1 + max(depth(t[0]), depth(t[1]))
            if depth(tree) <= 16:
                return tree
            f = [(x + 1) // 2 if x else 0 for x in f]      # SQ rescales the counts until no code is longer than 16 bits
    # any full binary tree over the used symbols is a legal code table: random shape
    items = list(syms)
    rng.shuffle(items)
    while len(items) > 1:
        if shape == "chain":
            i = 0
        else:
            i = rng.randrange(len(items) - 1)
        a = items.pop(i)
        b = items.pop(i)
        items.insert(i if shape != "chain" else 0, (a, b) if rng.random() < 0.5 else (b, a))
    return items[0]


def squeeze_table(tree, rng=None, order="bfs"):
    """node table of the tree (root = node 0) and the code (bit list) of every symbol"""
    nodes = []       # [left, right] with ints: >= 0 node index, < 0 leaf
    codes = {}
    pending = [(tree, None, None, [])]
    while pending:
        t, parent, side, path = pending.pop(0 if order == "bfs" else -1)
        idx = len(nodes)
        nodes.append([None, None])
        if parent is not None:
            nodes[parent][side] = idx
        for sd in (0, 1):
            ch = t[sd]
            if isinstance(ch, int):
                nodes[idx][sd] = -(ch + 1)
                codes.setdefault(ch, path + [sd])
            else:
                pending.append((ch, idx, sd, path + [sd]))
    return nodes, codes


def squeeze_encode(data, rng=None, shape="huffman", order=None, rle=True):
    """ARC method 4 stream of `data`"""
    src = rle90_encode(data) if rle else data
    freq = [0] * 257
    for b in src:
        freq[b] += 1
    freq[256] = 1
    tree = squeeze_tree(freq, rng, shape)
    nodes, codes = squeeze_table(tree, rng, order or (rng.choice(["bfs", "dfs"]) if rng else "bfs"))
    assert len(nodes) <= 256
    out = bytearray(struct.pack("<H", len(nodes)))
    for l, r in nodes:
        out += struct.pack("<hh", l, r)
    acc = 0
    n = 0
    for sy in list(src) + [256]:
        for bit in codes[sy]:
            acc |= bit << n
            n += 1
            if n == 8:
                out.append(acc)
                acc = 0
                n = 0
    if n:
        out.append(acc)
    return bytes(out)


# ------------------------------------------------------------------ ARC crunch (8) / squash (9) / Spark compress (0xff): LZW
# Format (ARC 5+ "dynamic LZW", the compress 4.0 scheme): codes start 9 bits wide and grow to `maxbits`; code 256 resets
# the table; new entries start at 257; codes are written LSB first in groups of 8 codes and the rest of a group is
# padding whenever the code width changes.  Crunch: RLE90 first, one leading byte (12); squash: 13 bits, no RLE, no
# leading byte; Spark "compress": leading byte = maxbits, no RLE.
def arc_lzw(src, maxbits=12, reset_every=0, rng=None, stats=None):
    """LZW code stream; `reset_every` > 0: once the table is full a reset code follows after that many further codes.
    `stats` (dict) receives the input positions at which the code width grew and at which the table became full."""
    out = bytearray()
    acc = 0
    nacc = 0
    group = 0                # codes written in the current group of 8
    width = 9
    maxcode = 1 << maxbits
    dec_next = 257           # the decoder's next free entry
    have_last = False
    events = []
    kwkwk = []               # (start, end) in src of strings whose code the decoder does not have yet when it arrives
    lens = {}

    def put(code):
        nonlocal acc, nacc, group
        acc |= code << nacc
        nacc += width
        while nacc >= 8:
            out.append(acc & 0xff)
            acc >>= 8
            nacc -= 8
        group = (group + 1) % 8

    def pad_group():
        nonlocal group
        while group:
            put(0)
        assert nacc == 0

    def emit(code, pos):
        nonlocal width, dec_next, have_last
        if have_last and code == dec_next and dec_next < maxcode:
            kwkwk.append((pos - lens.get(code, 1), pos))
        put(code)
        if have_last and dec_next < maxcode:
            dec_next += 1
            if dec_next == maxcode:
                events.append(("full", pos))
            if dec_next >= (1 << width) and width < maxbits:
                pad_group()
                width += 1
                events.append(("width%d" % width, pos))
        have_last = True

    table = {}
    free = 257
    since_full = 0
    if src:
        ent = src[0]
        for pos in range(1, len(src)):
            c = src[pos]
            key = (ent << 8) | c
            got = table.get(key)
            if got is not None:
                ent = got
                continue
            emit(ent, pos)
            if free < maxcode:
                table[key] = free
                lens[free] = lens.get(ent, 1) + 1
                free += 1
            elif reset_every:
                since_full += 1
                if since_full >= reset_every:
                    put(256)
                    if width != 9:
                        pad_group()
                        width = 9
                    dec_next = 257
                    have_last = False
                    table = {}
                    lens = {}
                    free = 257
                    since_full = 0
                    events.append(("reset", pos))
            ent = c
        emit(ent, len(src))
    if nacc:
        out.append(acc & 0xff)
    if stats is not None:
        stats["events"] = events
        stats["kwkwk"] = kwkwk
    return bytes(out)


def arc_crunch(data, reset_every=0, stats=None):
    return bytes([12]) + arc_lzw(rle90_encode(data), 12, reset_every, stats=stats)


def arc_squash(data, reset_every=0, stats=None):
    return arc_lzw(data, 13, reset_every, stats=stats)


def spark_compress(data, maxbits=16, reset_every=0, stats=None):
    return bytes([maxbits]) + arc_lzw(data, maxbits, reset_every, stats=stats)


def arc_name(name):
    nm = name.encode("latin-1")[:12]
    return nm + b"\0" * (13 - len(nm))


def arc_entry(name, data, method=2, spark=False, packed=None):
    m = method & 0x7f
    if packed is not None:
        cdata = packed
    elif m in (1, 2):
        cdata = data
    elif m == 3:
        cdata = rle90_encode(data)
    elif m == 4:
        cdata = squeeze_encode(data)
    elif m == 8:
        cdata = arc_crunch(data)
    elif m == 9:
        cdata = arc_squash(data)
    elif m == 0x7f:
        cdata = spark_compress(data)
    else:
        raise ValueError(method)
    h = bytes([0x1a, (method | 0x80) if spark else method]) + arc_name(name) + struct.pack("<I", len(cdata)) + \
        struct.pack("<HH", 0x2021, 0) + struct.pack("<H", crc16_fast(data))
    if m != 1:
        h += struct.pack("<I", len(data))
    if spark:
        h += struct.pack("<III", 0xfffffd00, 0, 0)
    return h + cdata


def arc_archive(members, spark=False):
    """members: list of (name, data, method) or (name, data, method, packed stream)."""
    out = b""
    for m in members:
        out += arc_entry(m[0], m[1], m[2], spark, packed=m[3] if len(m) > 3 else None)
    return out + bytes([0x1a, 0x80 if spark else 0x00])


def arc_tree(nodes, spark=False, top=True):
    """ARC / Spark archive with nested directories.  nodes: list of ("file", name, data, method) or
    ("dir", name, children).  A directory is an entry whose data is a nested archive: Spark: method 0x82 with the
    RISC OS filetype 0xDDC in the load address, closed by an end-of-archive marker (1a 80); ARC 6: type 30, closed
    by an end-of-directory marker (1a 1f)."""
    out = b""
    for n in nodes:
        if n[0] == "file":
            out += arc_entry(n[1], n[2], n[3], spark, packed=n[4] if len(n) > 4 else None)
        else:
            nested = arc_tree(n[2], spark, top=False)
            if spark:
                h = bytes([0x1a, 0x82]) + arc_name(n[1]) + struct.pack("<I", len(nested)) + struct.pack("<HH", 0x2021, 0) + \
                    struct.pack("<H", crc16_fast(nested)) + struct.pack("<I", len(nested)) + struct.pack("<III", 0xfffddc00 | 0x42, 0, 3)
            else:
                h = bytes([0x1a, 30]) + arc_name(n[1]) + struct.pack("<I", len(nested)) + struct.pack("<HH", 0x2021, 0) + \
                    struct.pack("<H", crc16_fast(nested)) + struct.pack("<I", len(nested))
            out += h + nested
    if top or spark:
        return out + bytes([0x1a, 0x80 if spark else 0x00])
    return out + bytes([0x1a, 31])


# ------------------------------------------------------------------ ArcFS
def arcfs_archive(members, pad_entries=0):
    """members: list of (name(<=11), data, method[, packed stream[, code bits]]) with method 0x82 stored / 0x83 packed /
    0x84 squeezed / 0x88 crunched / 0x89 squashed / 0xff compressed."""
    n = len(members) + pad_entries
    entries_len = 36 * n
    data_offset = 96 + entries_len
    hdr = b"Archive\0" + struct.pack("<IIIII", entries_len, data_offset, 260, 260, 0x0a) + b"\0" * 68
    ent = b""
    blob = b""
    for mem in members:
        name, data, method = mem[0], mem[1], mem[2]
        m = method & 0x7f
        bits = 0
        if len(mem) > 3:
            cdata = mem[3]
            bits = mem[4] if len(mem) > 4 else 0
        elif m == 2:
            cdata = data
        elif m == 3:
            cdata = rle90_encode(data)
        elif m == 4:
            cdata = squeeze_encode(data)
        elif m == 8:
            cdata, bits = arc_lzw(rle90_encode(data), 12), 12     # ArcFS keeps the code width in the attributes, not in the stream
        elif m == 9:
            cdata = arc_squash(data)
        elif m == 0x7f:
            cdata, bits = arc_lzw(data, 16), 16
        else:
            raise ValueError(method)
        nm = name.encode("latin-1")[:11]
        nm = nm + b"\0" * (11 - len(nm))
        attr = (crc16_fast(data) << 16) | (bits << 8) | 0x03
        e = bytes([method]) + nm + struct.pack("<I", len(data)) + struct.pack("<II", 0xfffffd00, 0) + \
            struct.pack("<I", attr) + struct.pack("<I", len(cdata)) + struct.pack("<I", len(blob))
        assert len(e) == 36
        ent += e
        blob += cdata
    ent += b"\0" * (36 * pad_entries)
    return hdr + ent + blob


# ------------------------------------------------------------------ LZX (stored)
def lzx_archive(members, comment=b""):
    out = b"LZX" + bytes([0, 0x0c, 0, 0x0a, 0x04, 0, 0])
    for name, data in members:
        nm = name.encode("latin-1")
        e = bytearray(31)
        e[0] = 0
        struct.pack_into("<I", e, 2, len(data))
        struct.pack_into("<I", e, 6, len(data))
        e[10] = 0x0a        # machine type
        e[11] = 0           # method: stored
        e[12] = 0           # flags
        e[14] = len(comment)
        e[15] = 0x0a
        struct.pack_into("<I", e, 18, 0x12345678)
        struct.pack_into("<I", e, 22, crc32(data))
        e[30] = len(nm)
        struct.pack_into("<I", e, 26, 0)
        hc = crc32(bytes(e) + nm + comment)
        struct.pack_into("<I", e, 26, hc)
        out += bytes(e) + nm + comment + data
    return out


# ------------------------------------------------------------------ PowerPacker PP20
def pp20(p, eff=(9, 10, 10, 10), use_matches=True, max_match=40):
    """PP20 file.  The decoder reads the bit stream from the end of the packed area backwards and writes the
    output from its end backwards, so the encoder works on reversed(p)."""
    assert 0 < len(p) < (1 << 24)
    R = p[::-1]
    n = len(R)
    bits = []

    def put(v, nb):
        for k in range(nb - 1, -1, -1):
            bits.append((v >> k) & 1)

    def put_literals(buf):
        m = len(buf) - 1
        while m >= 3:
            put(3, 2)
            m -= 3
        put(m, 2)
        for b in buf:
            put(b, 8)

    # find matches (hash of 2-byte pairs, most recent first)
    last = {}
    i = 0
    lit = bytearray()
    need_match = False      # after a literal run a match must follow
    maxoff = [1 << e for e in eff]
    while i < n:
        best = None
        if use_matches and i + 1 < n:
            key = R[i] | (R[i + 1] << 8)
            cand = last.get(key, ())
            for j in reversed(cand[-8:]):
                dist = i - j
                if dist < 1:
                    continue
                l = 0
                while i + l < n and l < max_match and R[j + l] == R[i + l]:
                    l += 1
                if l < 2:
                    continue
                # which length class?  x = min(l,5)-2 ; offset must fit
                x = min(l, 5) - 2
                off = dist - 1
                if x < 3:
                    if off < maxoff[x]:
                        ll = x + 2
                    else:
                        continue
                else:
                    if off < 128 or off < maxoff[3]:
                        ll = l
                    else:
                        continue
                if best is None or ll > best[0]:
                    best = (ll, off)
        if best is None:
            if i + 1 < n:
                last.setdefault(R[i] | (R[i + 1] << 8), []).append(i)
            lit.append(R[i])
            i += 1
            continue
        ll, off = best
        if lit:
            put(0, 1)
            put_literals(lit)
            lit = bytearray()
        else:
            put(1, 1)
        x = min(ll, 5) - 2
        put(x, 2)
        if x == 3:
            if off < 128:
                put(0, 1)
                put(off, 7)
            else:
                put(1, 1)
                put(off, eff[3])
            m = ll - 5
            while m >= 7:
                put(7, 3)
                m -= 7
            put(m, 3)
        else:
            put(off, eff[x])
        for k in range(ll):
            if i + k + 1 < n:
                last.setdefault(R[i + k] | (R[i + k + 1] << 8), []).append(i + k)
        i += ll
    if lit:
        put(0, 1)
        put_literals(lit)
    skip = (-len(bits)) % 32
    allbits = [0] * skip + bits
    nbytes = len(allbits) // 8
    packed = bytearray(nbytes)
    for idx, b in enumerate(allbits):
        if b:
            packed[nbytes - 1 - (idx >> 3)] |= 1 << (idx & 7)
    return b"PP20" + bytes(eff) + bytes(packed) + struct.pack(">I", len(p))[1:] + bytes([skip])


# ------------------------------------------------------------------ MMCMP (stored blocks)
def mmcmp_stored(p, block_size=0x10000, subs_per_block=1):
    """ziRCONia file whose blocks are all uncompressed (flags 0)."""
    blocks = []
    pos = 0
    while pos < len(p):
        chunk = p[pos:pos + block_size]
        # split chunk into sub blocks
        k = max(1, min(subs_per_block, len(chunk)))
        step = (len(chunk) + k - 1) // k
        subs = []
        q = 0
        while q < len(chunk):
            subs.append((pos + q, min(step, len(chunk) - q)))
            q += step
        blocks.append((chunk, subs))
        pos += len(chunk)
    hdr_len = 24
    body = b""
    offsets = []
    for chunk, subs in blocks:
        offsets.append(hdr_len + len(body))
        bh = struct.pack("<IIIHHHH", len(chunk), len(chunk), 0, len(subs), 0, 0, 0)
        for (upos, usz) in subs:
            bh += struct.pack("<II", upos, usz)
        body += bh + chunk
    blktable = hdr_len + len(body)
    hdr = b"ziRCONia" + struct.pack("<HHHIIBB", 14, 0x1300, len(blocks), len(p), blktable, 0, 0)
    assert len(hdr) == hdr_len
    return hdr + body + b"".join(struct.pack("<I", o) for o in offsets)


# ------------------------------------------------------------------ MMCMP (bit-packed blocks)
MM_CMD8 = [0x01, 0x03, 0x07, 0x0f, 0x1e, 0x3c, 0x78, 0xf8]
MM_FETCH8 = [3, 3, 3, 3, 2, 1, 0, 0]
MM_CMD16 = [0x0001, 0x0003, 0x0007, 0x000f, 0x001e, 0x003c, 0x0078, 0x00f0,
            0x01f0, 0x03f0, 0x07f0, 0x0ff0, 0x1ff0, 0x3ff0, 0x7ff0, 0xfff0]
MM_FETCH16 = [4, 4, 4, 4, 3, 2, 1, 0, 0, 0, 0, 0, 0, 0, 0, 0]
MMCMP_COMP, MMCMP_DELTA, MMCMP_16BIT, MMCMP_ABS16 = 0x0001, 0x0002, 0x0004, 0x0200


class _BitW:
    def __init__(s):
        s.out = bytearray()
        s.acc = 0
        s.n = 0

    def put(s, v, nb):
        assert 0 <= v < (1 << nb) or nb == 0
        s.acc |= v << s.n
        s.n += nb
        while s.n >= 8:
            s.out.append(s.acc & 0xff)
            s.acc >>= 8
            s.n -= 8

    def done(s):
        if s.n:
            s.out.append(s.acc & 0xff)
            s.acc = 0
            s.n = 0
        return bytes(s.out)


def _mm_codes(values, cmd, fetch, esc_bits, top, numbits, rng, end_marker):
    """MMCMP adaptive-width code stream for `values` (each < top + 2**esc_bits), starting at width `numbits`"""
    w = _BitW()
    nw = len(cmd)

    def change(nb):
        nonlocal numbits
        f = fetch[numbits]
        w.put(cmd[numbits] + (nb >> f), numbits + 1)
        w.put(nb & ((1 << f) - 1), f)
        if nb != numbits:
            numbits = nb
    for v in values:
        if v >= top:
            change(numbits)                      # "same width" escape, then esc_bits bits
            x = v - top
            w.put(x, esc_bits)
            if x == (1 << esc_bits) - 1:
                w.put(0, 1)                      # not the end marker
            continue
        need = next(k for k in range(nw) if v < cmd[k])
        if v >= cmd[numbits] or (rng is not None and rng.random() < 0.05):
            nb = need if rng is None or rng.random() < 0.7 else rng.randint(need, nw - 1)
            if nb != numbits:
                change(nb)
        w.put(v, numbits + 1)
    if end_marker:
        change(numbits)
        w.put((1 << esc_bits) - 1, esc_bits)
        w.put(1, 1)
    return w.done()


def mmcmp_block(subs, kind="stored", delta=False, abs16=False, numbits=None, rng=None, end_marker=False, table="freq"):
    """one MMCMP block.  subs: list of (unpk_pos, bytes).  kind: "stored" | "8bit" | "16bit" (16-bit: even sizes).
    Returns the block bytes (header + sub-block table + data)."""
    data = b"".join(d for _, d in subs)
    flags = 0
    tt = 0
    nb0 = 0
    if kind == "stored":
        body = data
    elif kind == "8bit":
        flags = MMCMP_COMP | (MMCMP_DELTA if delta else 0)
        syms = []
        prev = 0
        for b in data:
            if delta:
                syms.append((b - prev) & 0xff)
                prev = b
            else:
                syms.append(b)
        if table == "identity":
            tab = list(range(256))
        else:
            freq = {}
            for x in syms:
                freq[x] = freq.get(x, 0) + 1
            tab = sorted(freq, key=lambda x: (-freq[x], x))
        inv = {x: i for i, x in enumerate(tab)}
        tt = len(tab)
        nb0 = numbits if numbits is not None else (rng.randint(0, 7) if rng else 7)
        body = bytes(tab) + _mm_codes([inv[x] for x in syms], MM_CMD8, MM_FETCH8, 3, 0xf8, nb0, rng, end_marker)
    else:
        assert all(len(d) % 2 == 0 for _, d in subs)
        flags = MMCMP_COMP | MMCMP_16BIT | (MMCMP_DELTA if delta else 0) | (MMCMP_ABS16 if abs16 else 0)
        vals = []
        prev = 0
        for i in range(0, len(data), 2):
            wv = data[i] | (data[i + 1] << 8)
            if delta:
                x = (wv - prev) & 0xffff
                prev = wv
            elif abs16:
                x = wv
            else:
                x = wv ^ 0x8000
            sgn = x - 0x10000 if x >= 0x8000 else x
            vals.append(2 * sgn if sgn >= 0 else -2 * sgn - 1)
        nb0 = numbits if numbits is not None else (rng.randint(0, 15) if rng else 15)
        body = _mm_codes(vals, MM_CMD16, MM_FETCH16, 4, 0xfff0, nb0, rng, end_marker)
    xor = 0
    for b in body:
        xor ^= b
    bh = struct.pack("<IIIHHHH", len(data), len(body), xor, len(subs), flags, tt, nb0)
    for pos, d in subs:
        bh += struct.pack("<II", pos, len(d))
    return bh + body


def mmcmp_file(p, blocks):
    """blocks: list of block byte strings from mmcmp_block (their sub-blocks must tile the payload `p`)"""
    hdr_len = 24
    body = b""
    offs = []
    for b in blocks:
        offs.append(hdr_len + len(body))
        body += b
    hdr = b"ziRCONia" + struct.pack("<HHHIIBB", 14, 0x1300, len(blocks), len(p), hdr_len + len(body), 0, 0)
    return hdr + body + b"".join(struct.pack("<I", o) for o in offs)


def mmcmp_packed(p, rng, max_block=5000, kinds=("stored", "8bit", "16bit")):
    """a whole MMCMP file with a random mix of stored / 8-bit / 16-bit blocks, with and without DELTA / ABS16, several
    sub-blocks per block (written in shuffled order inside the block)"""
    blocks = []
    q = 0
    desc = []
    while q < len(p):
        n = min(len(p) - q, rng.choice([1, 2, 7, 64, 333, max_block]))
        kind = rng.choice(kinds)
        if kind == "16bit":
            n -= n % 2
            if n == 0:
                kind = "8bit"
                n = 1
        chunk = p[q:q + n]
        cuts = sorted(set([0, n] + [rng.randrange(0, n + 1) for _ in range(rng.choice([0, 0, 1, 2, 4]))]))
        if kind == "16bit":
            cuts = sorted(set(c - c % 2 for c in cuts))
        subs = [(q + a, chunk[a:b]) for a, b in zip(cuts, cuts[1:]) if b > a]
        if rng.random() < 0.3:
            rng.shuffle(subs)
        delta = rng.random() < 0.5
        abs16 = rng.random() < 0.5
        blocks.append(mmcmp_block(subs, kind, delta=delta, abs16=abs16, rng=rng, end_marker=rng.random() < 0.2,
                                  table=rng.choice(["freq", "freq", "identity"])))
        desc.append("%s%s%s/%d" % (kind, "+d" if delta and kind != "stored" else "", "+a" if abs16 and kind == "16bit" else "", len(subs)))
        q += n
    return mmcmp_file(p, blocks), desc
