#!/bin/sh
# tools/commit.sh "message"  — commits everything except paths matching the patterns in .inprogress
# (files of properties that a deepening agent is editing right now; their last good state stays committed)
cd "$(dirname "$0")/.."
set -- "$1"
EXC=""
if [ -f .inprogress ]; then
  while read -r pat; do
    case "$pat" in ""|\#*) continue;; esac
    EXC="$EXC :!$pat"
  done < .inprogress
fi
git add -A -- . $EXC
git commit -qm "$1" && git log --oneline | head -1
